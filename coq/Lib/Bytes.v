(* Lib/Bytes.v — bytes as Coq's 256-constructor [Byte.byte]; conversions to N; list utilities.
   Stdlib only.  No axioms. *)
From Coq Require Export List NArith ZArith Lia Bool.
From Coq Require Export Strings.Byte.
From Coq Require Import ZifyBool ZifyNat ZifyN.
Export ListNotations.
Ltac Zify.zify_post_hook ::= Z.div_mod_to_equations.

Local Open Scope N_scope.

Definition b2n (b : byte) : N := Byte.to_N b.

Definition n2b (n : N) : byte :=
  match Byte.of_N (n mod 256) with Some b => b | None => x00 end.

Lemma b2n_lt b : b2n b < 256.
Proof. unfold b2n. pose proof (Byte.to_N_bounded b). lia. Qed.

Lemma n2b_b2n b : n2b (b2n b) = b.
Proof.
  unfold n2b, b2n. rewrite N.mod_small by (pose proof (Byte.to_N_bounded b); lia).
  rewrite Byte.of_to_N. reflexivity.
Qed.

Lemma b2n_n2b n : b2n (n2b n) = n mod 256.
Proof.
  unfold n2b, b2n.
  destruct (Byte.of_N (n mod 256)) as [b|] eqn:E.
  - apply Byte.to_of_N in E. exact E.
  - exfalso. apply Byte.of_N_None_iff in E. assert (n mod 256 < 256) by (apply N.mod_lt; lia). lia.
Qed.

Lemma b2n_inj a b : b2n a = b2n b -> a = b.
Proof. intro H. rewrite <- (n2b_b2n a), <- (n2b_b2n b), H. reflexivity. Qed.

Definition byte_eqb (a b : byte) : bool := Byte.eqb a b.
Lemma byte_eqb_spec a b : reflect (a = b) (byte_eqb a b).
Proof.
  unfold byte_eqb. destruct (Byte.eqb a b) eqn:E.
  - constructor. apply Byte.byte_dec_bl. exact E.
  - constructor. apply Byte.eqb_false. exact E.
Qed.

(* ---- lengths as N (tail-recursive: safe for long buffers in extracted code) ---- *)
Definition lenN {A} (l : list A) : N := fold_left (fun n _ => N.succ n) l 0.

Lemma lenN_aux {A} (l : list A) k : fold_left (fun n _ => N.succ n) l k = k + N.of_nat (length l).
Proof.
  revert k. induction l as [|x l IH]; intro k; cbn [fold_left length].
  - lia.
  - rewrite IH. lia.
Qed.
Lemma lenN_length {A} (l : list A) : lenN l = N.of_nat (length l).
Proof. unfold lenN. rewrite lenN_aux. lia. Qed.
Lemma lenN_app {A} (a b : list A) : lenN (a ++ b) = lenN a + lenN b.
Proof. rewrite !lenN_length, app_length. lia. Qed.
Lemma lenN_nil {A} : lenN (@nil A) = 0.
Proof. reflexivity. Qed.
Lemma lenN_cons {A} (x : A) l : lenN (x :: l) = N.succ (lenN l).
Proof. rewrite !lenN_length. cbn [length]. lia. Qed.

(* ---- take n l : split off exactly n elements, or fail ---- *)
Fixpoint take {A} (n : nat) (l : list A) : option (list A * list A) :=
  match n with
  | O => Some ([], l)
  | S n' => match l with
            | [] => None
            | x :: r => match take n' r with
                        | Some (a, b) => Some (x :: a, b)
                        | None => None
                        end
            end
  end.

Lemma take_spec {A} n (l a b : list A) : take n l = Some (a, b) <-> (l = a ++ b /\ length a = n).
Proof.
  revert l a b. induction n as [|n IH]; intros l a b; cbn [take].
  - split.
    + intro H. inversion H. subst. split; reflexivity.
    + intros [H1 H2]. destruct a; [|discriminate]. subst. reflexivity.
  - destruct l as [|x r].
    + split; [discriminate|]. intros [H1 H2]. destruct a; discriminate.
    + destruct (take n r) as [[a' b']|] eqn:E.
      * apply IH in E. destruct E as [E1 E2]. split.
        -- intro H. inversion H. subst. split; reflexivity.
        -- intros [H1 H2]. destruct a as [|y a]; [discriminate|]. cbn in H1, H2.
           inversion H1. subst y. assert (length a = n) by lia.
           assert (take n r = Some (a, b)) as E' by (apply IH; split; assumption).
           assert (take n r = Some (a', b')) as E'' by (apply IH; split; assumption).
           rewrite E' in E''. inversion E''. reflexivity.
      * split; [discriminate|]. intros [H1 H2]. destruct a as [|y a]; [discriminate|]. cbn in H1, H2.
        inversion H1. subst. assert (take n (a ++ b) = Some (a, b)) as E' by (apply IH; split; [reflexivity|lia]).
        rewrite E' in E. discriminate.
Qed.

Lemma take_app {A} (a b : list A) : take (length a) (a ++ b) = Some (a, b).
Proof. apply take_spec. split; reflexivity. Qed.

Lemma take_none {A} n (l : list A) : take n l = None <-> (length l < n)%nat.
Proof.
  revert l. induction n as [|n IH]; intro l; cbn [take].
  - split; [discriminate|lia].
  - destruct l as [|x r]; cbn [length].
    + split; [lia|reflexivity].
    + destruct (take n r) as [[a b]|] eqn:E.
      * split; [discriminate|]. intro H. assert (take n r = None) as E' by (apply IH; lia). congruence.
      * split; [|reflexivity]. intros _. apply IH in E. lia.
Qed.

(* takeN: the count is an N (a wire length up to 2^32-1 never becomes a unary nat) *)
Fixpoint takeN {A} (n : N) (l : list A) {struct l} : option (list A * list A) :=
  if n =? 0 then Some ([], l)
  else match l with
       | [] => None
       | x :: r => match takeN (N.pred n) r with
                   | Some (a, b) => Some (x :: a, b)
                   | None => None
                   end
       end.

Lemma takeN_take {A} n (l : list A) : n <= lenN l -> takeN n l = take (N.to_nat n) l.
Proof.
  revert n. induction l as [|x r IH]; intros n Hn.
  - rewrite lenN_nil in Hn. assert (n = 0) by lia. subst. reflexivity.
  - cbn [takeN]. destruct (N.eqb_spec n 0) as [->|Hne]; [reflexivity|].
    rewrite lenN_cons in Hn.
    replace (N.to_nat n) with (S (N.to_nat (N.pred n))) by lia. cbn [take].
    rewrite IH by lia. reflexivity.
Qed.

Lemma takeN_spec {A} n (l a b : list A) : takeN n l = Some (a, b) <-> (l = a ++ b /\ lenN a = n).
Proof.
  revert n a b. induction l as [|x r IH]; intros n a b; cbn [takeN].
  - destruct (N.eqb_spec n 0) as [->|Hne].
    + split.
      * intro H. inversion H. split; reflexivity.
      * intros [H1 H2]. destruct a; [|rewrite lenN_cons in H2; lia]. cbn in H1. subst. reflexivity.
    + split; [discriminate|]. intros [H1 H2]. destruct a; [rewrite lenN_nil in H2; lia|discriminate].
  - destruct (N.eqb_spec n 0) as [->|Hne].
    + split.
      * intro H. inversion H. split; reflexivity.
      * intros [H1 H2]. destruct a; [|rewrite lenN_cons in H2; lia]. cbn in H1. subst. reflexivity.
    + destruct (takeN (N.pred n) r) as [[a' b']|] eqn:E.
      * apply IH in E. destruct E as [E1 E2]. split.
        -- intro H. inversion H. subst a b. split; [cbn; congruence|rewrite lenN_cons; lia].
        -- intros [H1 H2]. destruct a as [|y a]; [rewrite lenN_nil in H2; lia|].
           cbn in H1. inversion H1. subst y. rewrite lenN_cons in H2.
           assert (takeN (N.pred n) r = Some (a, b)) as E' by (apply IH; split; [assumption|lia]).
           assert (takeN (N.pred n) r = Some (a', b')) as E'' by (apply IH; split; assumption).
           rewrite E' in E''. inversion E''. reflexivity.
      * split; [discriminate|]. intros [H1 H2]. destruct a as [|y a]; [rewrite lenN_nil in H2; lia|].
        cbn in H1. inversion H1 as [[Hx Hr]]. rewrite lenN_cons in H2.
        assert (takeN (N.pred n) r = Some (a, b)) as E' by (apply IH; split; [exact Hr|lia]).
        congruence.
Qed.

Lemma takeN_app {A} (a b : list A) : takeN (lenN a) (a ++ b) = Some (a, b).
Proof. apply takeN_spec. split; reflexivity. Qed.

Lemma takeN_none {A} n (l : list A) : takeN n l = None <-> lenN l < n.
Proof.
  revert n. induction l as [|x r IH]; intro n; cbn [takeN].
  - change (lenN (@nil A)) with 0. destruct (N.eqb_spec n 0); split; try discriminate; try lia; reflexivity.
  - rewrite lenN_cons. destruct (N.eqb_spec n 0) as [->|Hne].
    + split; [discriminate|lia].
    + destruct (takeN (N.pred n) r) as [[a b]|] eqn:E.
      * split; [discriminate|]. intro H. assert (takeN (N.pred n) r = None) as E' by (apply IH; lia). congruence.
      * split; [|reflexivity]. intros _. apply IH in E. lia.
Qed.

(* ---- dropping a run of one byte from the front / back ---- *)
Fixpoint drop_run (b : byte) (l : list byte) : list byte :=
  match l with
  | [] => []
  | x :: r => if byte_eqb x b then drop_run b r else l
  end.

Definition trim_left (b : byte) (l : list byte) : list byte := drop_run b l.
Definition trim_right (b : byte) (l : list byte) : list byte := rev (drop_run b (rev l)).

Lemma drop_run_repeat b n l : drop_run b (repeat b n ++ l) = drop_run b l.
Proof.
  induction n as [|n IH]; cbn [repeat app drop_run]; [reflexivity|].
  destruct (byte_eqb_spec b b); [exact IH|congruence].
Qed.

Lemma drop_run_head b l : (forall x r, l = x :: r -> x <> b) -> drop_run b l = l.
Proof.
  destruct l as [|x r]; intro H; cbn [drop_run]; [reflexivity|].
  destruct (byte_eqb_spec x b) as [->|]; [|reflexivity]. exfalso. eapply H; reflexivity.
Qed.

(* decomposition: every list is a run of b followed by what drop_run leaves *)
Lemma drop_run_decomp b l : exists n, l = repeat b n ++ drop_run b l /\ (forall x r, drop_run b l = x :: r -> x <> b).
Proof.
  induction l as [|x r IH]; cbn [drop_run].
  - exists O. split; [reflexivity|]. intros; discriminate.
  - destruct (byte_eqb_spec x b) as [->|Hne].
    + destruct IH as [n [H1 H2]]. exists (S n). cbn [repeat app]. split; [congruence|exact H2].
    + exists O. split; [reflexivity|]. intros y r' H. inversion H. subst. exact Hne.
Qed.

Lemma drop_run_length b l : (length (drop_run b l) <= length l)%nat.
Proof.
  induction l as [|x r IH]; cbn [drop_run length]; [lia|].
  destruct (byte_eqb x b); cbn [length]; lia.
Qed.
