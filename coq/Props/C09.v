(* Props/C09.v — decoding arbitrary bytes never panics or hangs: it returns a message or an error. *)
From FP.Props Require Import Common.
From FP.Theory Require Import DecSafe.
Local Open Scope N_scope.

(* the static side conditions, evaluated on the programs found in /repo: length/count prefixes are at
   most 32 bits wide (so int(prefix) is never negative), every counted loop terminates (16-bit count, or
   elements that consume at least one byte), every discriminator key is a scalar or text field decoded
   earlier, every table target and nested type is a declared type *)
Lemma H_dec_safe : dec_safe_env tables schemas = true.
Proof. vm_compute. reflexivity. Qed.

Definition known (t : N) : bool := has_id schemas t.

(* C09.  For every message type, every byte string and every receiver of the right shape, Decode
   returns normally with a message or with an error: the model's [FPanic] (nil dereference, negative
   make, failed assertion), [FFuel] (a loop that outruns its input) and [FUnmodelled] outcomes are
   unreachable. *)
Theorem C09_decode_returns_message_or_error : forall t r buf,
  known t = true -> receiver_ok t r = true ->
  (exists fs rest, decode t r buf = Ok (fs, rest)) \/ decode t r buf = Fail FErr.
Proof.
  intros t r buf Hk Hr. rewrite decode_spec by exact Hr.
  destruct (proj1 (dec_safe tables schemas H_dec_safe t buf Hk)) as [[[fs rest] E]|E]; [left; exists fs, rest; exact E|right; exact E].
Qed.

(* a successful Decode consumes a prefix of its input - at least the type's minimal encoded size - and
   leaves the remaining bytes exactly as they were (work is bounded by the bytes present) *)
Theorem C09_decode_consumes_a_prefix : forall t r buf fs rest,
  known t = true -> receiver_ok t r = true -> decode t r buf = Ok (fs, rest) ->
  exists pre, buf = pre ++ rest /\ msize_env schemas t <= lenN pre.
Proof.
  intros t r buf fs rest Hk Hr H. rewrite decode_spec in H by exact Hr.
  exact (proj2 (dec_safe tables schemas H_dec_safe t buf Hk) fs rest H).
Qed.

(* non-vacuity: all 170 types are known; hostile inputs on concrete types *)
Example C09_all_types_known : forallb known (map ty_id env) = true.
Proof. vm_compute. reflexivity. Qed.
Example C09_nonvacuous :
  decode id_sse_bin_SseBinary (zero_value id_sse_bin_SseBinary) [xff; xff; xff; xff; xff; xff; xff] = Fail FErr /\
  decode id_sse_bin_ExecRptInfo (zero_value id_sse_bin_ExecRptInfo) [x00; x01; xff; xff; x41] = Fail FErr /\
  decode id_risk_bin_NewOrder (zero_value id_risk_bin_NewOrder) [x00; x10; x00; x00; x00; x00; x00] = Fail FErr.
Proof. vm_compute. repeat split; reflexivity. Qed.

Print Assumptions C09_decode_returns_message_or_error.
Print Assumptions C09_decode_consumes_a_prefix.
